"""Per-property configuration of check.py: which Lean modules/theorems are the proof obligations,
how many requests each tier generates, what counts as a non-trivial case, and how to shrink."""


def _c07_nontrivial(toks, impl):
    # at least two intervals (a minimizer change actually happened)
    return impl != "panic" and impl.count(";") >= 1


def _c07_tags(toks, impl):
    k, p = int(toks[2]), int(toks[3])
    n = 0 if toks[4] == "-" else len(toks[4])
    t = ["p=%d" % p, "score=" + toks[5].split(":")[0], "container=" + (toks[6] if len(toks) > 6 else "slice")]
    t.append("k=p" if k == p else "k>p")
    t.append("len<k" if n < k else ("len=k" if n == k else "len>k"))
    t.append("alphabet=%d" % len(set(toks[4])) if toks[4] != "-" else "alphabet=0")
    t.append("answer=panic" if impl == "panic" else "intervals=%s" % ("1" if ";" not in impl else ("2-4" if impl.count(";") < 4 else "5+")))
    return t


def _c07_shrink(toks):
    # drop one base / a block of bases from the sequence, lower k
    out = []
    seq = toks[4]
    n = len(seq)
    for blk in (n // 2, n // 4, 8, 1):
        if blk >= 1:
            for i in range(0, n - blk + 1, max(1, blk)):
                s = seq[:i] + seq[i + blk:]
                if s:
                    out.append(toks[:4] + [s] + toks[5:])
    k, p = int(toks[2]), int(toks[3])
    if k > p:
        out.append(toks[:2] + [str(k - 1)] + toks[3:])
    return out


def _c08_nontrivial(toks, impl):
    # at least one read split into >= 2 pieces, and >= 2 reads (cross-read bucket consistency is exercised)
    return impl != "panic" and ";" in impl and "|" in impl


def _c08_tags(toks, impl):
    t = ["p=%s" % toks[3], "rc=%s" % toks[4], "perm=" + ("default" if toks[5] == "default" else "random"), "container=" + toks[6],
         "reads=%d" % (toks[7].count(",") + 1)]
    t.append("answer=panic" if impl == "panic" else ("pieces>=2-in-some-read" if ";" in impl else "single-pieces"))
    if any(len(r) < int(toks[2]) for r in toks[7].split(",")):
        t.append("has-read<k")
    return t


def _c08_shrink(toks):
    out = []
    reads = toks[7].split(",")
    for i in range(len(reads)):
        if len(reads) > 1:
            out.append(toks[:7] + [",".join(reads[:i] + reads[i + 1:])])
        r = reads[i]
        for blk in (len(r) // 2, 4, 1):
            if blk >= 1 and len(r) > blk:
                for j in range(0, len(r) - blk + 1, blk):
                    out.append(toks[:7] + [",".join(reads[:i] + [r[:j] + r[j + blk:]] + reads[i + 1:])])
    return out


def _c10_tags(toks, impl):
    return ["type=" + toks[1], "op=" + toks[2]] + (["answer=panic"] if impl == "panic" else [])


def _c11_tags(toks, impl):
    ops = [] if toks[4] == "-" else toks[4].split(",")
    t = ["type=" + toks[1], "init=" + toks[3][0], "history-length=%s" % ("0" if not ops else ("1-10" if len(ops) <= 10 else "11-40"))]
    for o in set(x[0] for x in ops):
        t.append("op=" + o)
    return t


def _c14_tags(toks, impl):
    if toks[1] == "pset":
        return ["request=pset"]
    ops = toks[2].split(";")
    t = ["request=hist", "history-length=%s" % ("1-5" if len(ops) <= 5 else ("6-15" if len(ops) <= 15 else "16-25"))]
    for o in set(x.split(".")[0] for x in ops):
        t.append("op=" + o)
    t.append("other=" + ("prefix" if toks[3][0] == "P" else "extension" if toks[3][0] == "X" else "literal"))
    return t


def _c15_tags(toks, impl):
    if toks[1] == "ham":
        n = int(toks[8])
        return ["request=ham", "ham-length=%s" % ("<1024" if n < 1024 else ">=1024"), "ham-rc=%s%s" % (toks[5], toks[7])]
    ops = toks[3].split(",")
    t = ["request=slice", "depth=%d" % len(ops), "ktype=" + toks[4]]
    t.append("rc-flips=%d" % sum(1 for o in ops if o == "r"))
    t.append("len>=256" if len(toks[2]) >= 256 else "len<256")
    if impl == "panic":
        t.append("answer=panic")
    return t


def _c15_shrink(toks):
    out = []
    if toks[1] == "slice":
        ops = toks[3].split(",")
        for i in range(len(ops)):
            if len(ops) > 1:
                out.append(toks[:3] + [",".join(ops[:i] + ops[i + 1:])] + toks[4:])
        seq = toks[2]
        for cut in (len(seq) // 2, 8, 1):
            if cut >= 1 and len(seq) > cut:
                out.append(toks[:2] + [seq[:-cut]] + toks[3:])
    return out


def _c17_tags(toks, impl):
    if toks[1] == "new":
        return ["request=new", "words=" + toks[2]]
    ops = [] if toks[4] == "-" else toks[4].split(",")
    n = int(toks[2]); ln = 0 if toks[3] == "-" else len(toks[3])
    t = ["request=hist", "words=%d" % n, "len=max" if ln == (n * 64 - 8) // 2 else "len<max"]
    for o in ops:
        if o[0] == "P":
            pos, m = int(o[1:].split(".")[0]), int(o[1:].split(".")[1])
            if pos // 32 != (pos + m - 1) // 32:
                t.append("run-crosses-word-boundary")
            if (pos + m - 1) // 32 == n - 1:
                t.append("run-touches-length-word")
    for o in set(x[0] for x in ops):
        t.append("op=" + o)
    return sorted(set(t))


def _c13_tags(toks, impl):
    cont = "bulk-constructor" if toks[2] in ("kmersb", "kmersa") else toks[3].split(".")[0]
    t = ["ktype=" + toks[1], "req=" + toks[2], "container=" + cont] + (["answer=panic"] if impl == "panic" else [])
    if toks[2] in ("iter", "iterexts") and impl != "panic":
        # how many items the iterator delivered (a request type exercised only on sequences shorter than K would show here)
        body = impl.split(" it=")[0]
        n = 0 if body == "-" else body.count(",") + 1
        t.append("%s-items=%s" % (toks[2], "0" if n == 0 else "1" if n == 1 else "2-9" if n < 10 else "10-49" if n < 50 else "50+"))
    return t


def _c12_tags(toks, impl):
    if toks[1] == "exts":
        return ["req=exts"]
    ln = 0 if toks[4] == "-" else len(toks[4])
    return ["ktype=" + toks[1], "container=" + toks[3].split(".")[0], "len=" + ("0-1" if ln <= 1 else "block-boundary" if ln in (31, 32, 33, 63, 64, 65) else "other")]


def _c16_tags(toks, impl):
    t = ["req=" + toks[1] + ("-" + toks[2] if toks[1] in ("acgt", "kernel") else "")]
    if toks[1] == "acgt":
        n = 0 if toks[3] == "-" else len(toks[3]) // 2
        t.append("blocks=%d%s" % (n // 32, "+tail" if n % 32 else ""))
    return t


def _c05_tags(toks, impl):
    t = ["K=" + toks[2], "stranded=" + toks[3], "report_all=" + toks[4], "summarizer=" + toks[5].split(":")[0]]
    if impl.startswith("passes="):
        p = int(impl.split("|")[0][7:])
        t.append("passes=%s" % ("1" if p == 1 else "2-7" if p < 8 else "8-63" if p < 64 else "64-255" if p < 256 else "256"))
        t.append("table-empty" if impl.split("|")[1] == "-" else "table-nonempty")
    else:
        t.append("answer=" + impl[:10])
    return t


def _reads_shrink(idx):
    def f(toks):
        out = []
        if len(toks) <= idx or ":" not in toks[idx]:
            return out
        reads = toks[idx].split(",")
        for i in range(len(reads)):
            if len(reads) > 1:
                out.append(toks[:idx] + [",".join(reads[:i] + reads[i + 1:])] + toks[idx + 1:])
            sq, e, l = reads[i].split(":")
            for blk in (len(sq) // 2, 4, 1):
                if blk >= 1 and len(sq) > blk:
                    for j in range(0, len(sq) - blk + 1, max(1, blk)):
                        out.append(toks[:idx] + [",".join(reads[:i] + [sq[:j] + sq[j + blk:] + ":" + e + ":" + l] + reads[i + 1:])] + toks[idx + 1:])
        return out
    return f


def _c01_tags(toks, impl):
    if toks[1] == "longpath":
        return ["req=longpath", "K=" + toks[2], "stranded=" + toks[5], "entry=" + toks[6]]
    t = ["entry=" + toks[2], "K=" + toks[3], "stranded=" + toks[4], "join=" + toks[5], "reduce=" + toks[6]]
    nk = 0 if toks[7] == "-" else toks[7].count(",") + 1
    t.append("kmers=%s" % ("0" if nk == 0 else "1-9" if nk < 10 else "10-49" if nk < 50 else "50+"))
    if "|" in impl:
        nodes = impl.split("|")[1]
        if nodes == "panic":
            t.append("answer=panic")
        else:
            nn = 0 if nodes == "-" else nodes.count(",") + 1
            t.append("nodes=%s" % ("0" if nn == 0 else "1" if nn == 1 else "2-5" if nn < 6 else "6+"))
    return t


def _c01_nontrivial(toks, impl):
    # at least two nodes, one of them with at least two k-mers; or a long path with the generator's guarantee met
    if toks[1] == "longpath":
        return impl.startswith("distinct=1")
    if "|" not in impl:
        return False
    nodes = impl.split("|")[1]
    if nodes in ("panic", "-") or "," not in nodes:
        return False
    K = int(toks[3])
    return any(len(n.split(":")[0]) > K for n in nodes.split(","))


def _table_shrink(toks):
    out = []
    if toks[1] == "longpath":
        return out
    ents = toks[7].split(",")
    if len(ents) > 1:
        for i in range(len(ents)):
            out.append(toks[:7] + [",".join(ents[:i] + ents[i + 1:])])
    return out


_C01_RULE = ("one request in 500 (thorough: 300) is `longpath K seed len stranded entry`: a repeat-free random read of 131 200-150 000 bases (K in "
             "{24,31,48}; the harness checks that all canonical k-mers are distinct and none is its own reverse complement) through the real filter "
             "and the entry point - too large for the line protocol and the executable model, so the answer is judged against the property "
             "directly: one unbranched path = one node holding every k-mer (implementation against the statement, not against the model); the corpus holds one such path of 2 100 100 bases on two-word k-mers for every run. The others: "
             "requests `compress <entry> K stranded join reduce <table>`: k-mer tables produced by the real filter_kmers from the structured "
             "read-set generator (alphabet 1-4, chunk reuse, s++rc(s), hairpins, tandem repeats, homopolymers, tight cycles, rc/duplicate/SNP/tip "
             "copies) with thresholds 1-3, pruned with remove_censored_exts when the threshold rejects k-mers (otherwise half of the time); 5% with "
             "one extension bit flipped (non-reciprocal: panic branch compared with the model only), 5% with one k-mer dropped unpruned "
             "(dangling extensions); entry points from-hash / from-slice / no-exts; K in {4,5,6,8,12,16,31,32,40,41,48,64} with 60% K<=8 (thorough: all 17 "
             "types); stranded 1/3; join always|payload-equality (colour = label set); reduce saturating-sum|max|non-commutative mix. The "
             "hash map's index order is read back from the implementation and handed to the model. Non-trivial = at least two nodes, one "
             "with >= 2 k-mers.")

def _c03_tags(toks, impl):
    t = ["req=" + toks[1], "K=" + toks[2], "stranded=" + toks[3]]
    if toks[1] == "graph":
        n = 0 if toks[4] == "-" else toks[4].count(",") + 1
        t.append("nodes=%s" % ("0" if n == 0 else "1" if n == 1 else "2-5" if n < 6 else "6+"))
        t.append("valid=" + ("all" if toks[6] == "*" else "subset"))
        if "f" in (impl.split("|")[0] if "|" in impl else ""):
            t.append("has-flipped-edge")
    return t


def _c09_tags(toks, impl):
    n = 0 if toks[8] == "-" else toks[8].count(",") + 1
    K = int(toks[2])
    lens = [len(x.split(":")[0]) for x in toks[8].split(",")] if toks[8] != "-" else []
    level = "empty" if not lens else ("one-kmer-per-node" if all(l == K for l in lens) else "compressed/partial")
    return ["K=" + toks[2], "stranded=" + toks[4], "join=" + toks[5], "reduce=" + toks[6], "censor=" + ("none" if toks[7] == "-" else "some"),
            "input=" + level, "nodes=%s" % ("0" if n == 0 else "1-3" if n < 4 else "4-15" if n < 16 else "16+")]


def _c18_tags(toks, impl):
    if toks[1] == "all":
        return ["req=all"]
    calls = toks[5].split(",")
    t = ["req=iter", "K=" + toks[2]]
    if any(c != "n" and int(c[1:]) > 4 for c in calls):
        t.append("long-skip")
    if any(c != "n" and int(c[1:]) <= 4 for c in calls):
        t.append("short-skip")
    if "end" in impl:
        t.append("reaches-end")
    return t


def _c18_shrink(toks):
    out = []
    if toks[1] == "iter":
        calls = toks[5].split(",")
        for i in range(len(calls)):
            if len(calls) > 1:
                out.append(toks[:5] + [",".join(calls[:i] + calls[i + 1:])])
        seqs = toks[3].split(",")
        idx = int(toks[4])
        for i in range(len(seqs)):
            if i != idx and len(seqs) > 1:
                out.append(toks[:3] + [",".join(seqs[:i] + seqs[i + 1:]), str(idx - 1 if i < idx else idx)] + toks[5:])
    return out


def _c20_tags(toks, impl):
    t = ["req=" + toks[1] + ("-" + toks[2] if toks[1] == "persist" else "")]
    if toks[1] == "export":
        n = 0 if toks[4] == "-" else toks[4].count(",") + 1
        t.append("nodes=%s" % ("0" if n == 0 else "1" if n == 1 else "2+"))
        t.append("rest=" + ("none" if toks[5] == "none" else "object"))
        if "L\\t" in impl:
            t.append("has-links")
    return t


def _c20_shrink(toks):
    out = []
    if toks[1] == "export" and toks[4] != "-":
        ns = toks[4].split(",")
        for i in range(len(ns)):
            if len(ns) > 1:
                out.append(toks[:4] + [",".join(ns[:i] + ns[i + 1:])] + toks[5:])
    return out


def _c04_tags(toks, impl):
    if toks[1] == "bigrep":
        return ["req=bigrep", "K=%s,P=%s" % (toks[2], toks[3]), "stranded=" + toks[4], "thr=" + toks[5]]
    t = ["K=%s,P=%s" % (toks[2], toks[3]), "perm=" + ("default" if toks[4] == "default" else "random"), "stranded=" + toks[5], "thr=" + toks[6], "prune=" + toks[7]]
    if impl.startswith("sigmas="):
        sg = impl.split("|")[0][7:]
        n = 0 if sg == "-" else sg.count(";") + 1
        t.append("shards=%s" % ("0" if n == 0 else "1" if n == 1 else "2-4" if n < 5 else "5-15" if n < 16 else "16+"))
    return t


def _c04_nontrivial(toks, impl):
    # at least two shards and a final graph with at least two nodes
    if toks[1] == "bigrep":
        return impl.startswith("same=1")
    if not impl.startswith("sigmas="):
        return False
    f = impl.split("|")
    return f[0].count(";") >= 1 and f[1].count(",") >= 1


def _c06_tags(toks, impl):
    return ["K=" + toks[2], "stranded=" + toks[3], "thr=" + toks[4], "mask=" + ("empty" if toks[5] == "-" else "nonempty")]


def _c19_tags(toks, impl):
    if toks[1] == "big":
        return ["req=big", "nodes=" + toks[4], "threads=" + toks[5]]
    n = 0 if toks[5] == "-" else toks[5].count(",") + 1
    return ["req=finish", "threads=" + toks[4], "nodes=%s" % ("0" if n == 0 else "1-4" if n < 5 else "5+")]


PROPS = {
    "C07": {
        "lean_modules": ["Dbg.Props.C07", "Dbg.Props.C08b"],
        "theorems": ["Msp.C07_simple_scan", "Msp.simpleScan_eq_scan", "Msp.C07_scan_valid", "Msp.C07_scan_holds", "Msp.C07_scan_guard", "Msp.C07_every_kmer_once"],
        "partial": [],
        "n_quick": 4000, "n_thorough": 300000,
        "nontrivial": _c07_nontrivial, "tags": _c07_tags, "shrink": _c07_shrink,
        "rule": "one request in ten is `sscan k p rc perm read`: the deprecated wrapper simple_scan (an observation point of C07) with a permutation score, judged on tiling, lengths and bucket = canonical rank of a minimal p-mer lying in every k-mer of the interval. The others: requests `scan k p seq score container` generated from one xorshift state (alphabet 1-4; uniform, tandem-repeat, "
                "homopolymer, s++rc(s) and chunk-pasted sequences; k = p..p+12 incl. k = p; scores: random permutation table, tables that mask p-mers with usize::MAX (some, all, all but one) next to usize::MAX-1 and small values, "
                "rank mod 3, random 0..3, rc-symmetric, linear-hash mod {1,2,3,5,17,1000,1000003}, constant; one request in 12 has a window of k - p in {61..66, 71} p-mers (p in {4,5,8}) on a sequence of k + 300..900 bases; containers DnaSlice, "
                "DnaString, Lmer3; 2.5% sequences shorter than k). Non-trivial = the real scan returned at least two intervals; "
                "distinct = distinct request lines.",
        "trusted_base": ["modelled, not verified: `Vmer::get_kmer`/`Kmer::extend_right` deliver the p-mer at a position (the model reads "
                         "the window directly; tied by T2 through the reported minimizer strings); the score closure is a pure function"],
        "assumptions": ["score function is pure", "theorem guard 2k-p <= 65535 (outside it: known finding D7)"],
    },
    "C08": {
        "lean_modules": ["Dbg.Props.C08", "Dbg.Props.C08b"],
        "theorems": ["Msp.simpleScan_eq_scan", "Msp.C08_bucket_pure", "Msp.C08_bucket_strand_symmetric", "Msp.C08_pieces_exact", "Msp.C08_pieces_cover", "Msp.extsFromSliceBounds_eq"],
        "partial": [],
        "n_quick": 4000, "n_thorough": 200000,
        "nontrivial": _c08_nontrivial, "tags": _c08_tags, "shrink": _c08_shrink,
        "rule": "requests `msp k p rc perm container reads`: 1-5 reads per set (random, tandem, homopolymer, palindromic, chunk-pasted; a third "
                "of the later reads are reverse complements / shifted windows / copies of earlier ones so that the same k-mer occurs in several "
                "reads, positions and strands), p in {2,3,4} (thorough: ..6) and, one request in 15, p = 8, 10 or 12 with the default permutation (its 4^p-entry identity table), k = p+1..p+12 and, one request in 20, k - p in {61..66, 71} on growable containers with reads of k + 80..300 bases, default and random permutations, rc on/off, "
                "containers DnaBytes, DnaString, Lmer1/2/3 (k capped so that 2k-p fits, with a 1/30 stream violating the capacity "
                "assertion). Non-trivial = at least two reads and some read split into >= 2 pieces.",
        "trusted_base": ["modelled, not verified: Vmer::from_slice / get of each container reproduce the bases written (that is C13/C14/C17)"],
        "assumptions": ["permutation indices are in range (the crate indexes perm[rank] unchecked otherwise)"],
    },
    "C10": {
        "lean_modules": ["Dbg.Props.C10", "Dbg.Props.C10b"],
        "theorems": ["Kmer.C10_getExtensions", "Kmer.C10_hd1_strings", "KSpec.hd1_sound", "KSpec.hd1_complete", "KSpec.hd1_length", "Kmer.shipped_wf", "Kmer.shipped_count", "Kmer.C10_get", "Kmer.C10_set", "Kmer.C10_set_inv", "Kmer.C10_extendRight",
                     "Kmer.C10_extendLeft", "Kmer.C10_fromBytes", "Kmer.C10_rc", "Kmer.C10_toU64", "Kmer.C10_setSlice", "Kmer.C10_fromU64",
                     "Kmer.C10_u64_roundtrip", "Kmer.C10_toString", "Kmer.C10_fromAscii", "Kmer.C10_kmersFromBytes", "Kmer.C10_kmersFromAscii",
                     "Kmer.C10_hamming", "Kmer.C10_atCount", "Kmer.C10_gcCount"],
        "partial": [],
        "n_quick": 40000, "n_thorough": 4000000,
        "nontrivial": lambda toks, impl: impl != "panic", "tags": _c10_tags,
        "rule": "requests `<type> <op> <args>` over all 19 shipped k-mer types plus six `VarIntKmer` instances that are no alias (`<u8,K4>`, the only one that fills its storage, `<u16,K4>`, `<u128,K31>`, and `<u128,K33|K41|K63>` with sizes defined in the harness - `KmerSize` is a public trait) and 18 operations (get, set, setslice with garbage below the "
                "run, extl, extr, rc, tou64, fromu64, ham, at, gc, tostr, frombytes, fromascii with non-ACGT noise, minrc(+flip,+palindrome), "
                "cmp, kmers_from_bytes/ascii); k-mers drawn uniformly from all 4^K values for K<=8 and from a biased family (all-A, all-T, "
                "alternating, one-hot lane, s++rc(s), uniform) otherwise; 1/12 too-short inputs for the constructors. k-mers travel as raw "
                "storage words so that bits outside the K lanes are observable. Non-trivial = the real operation did not panic.",
        "trusted_base": ["modelled, not verified: num_traits PrimInt shifts/conversions behave as the primitive integer operations; count_ones is "
                         "the number of set bits"],
        "assumptions": ["arguments in range (pos < K, base < 4, 1 <= n <= min(32, K-pos), rank < 4^K)"],
    },
    "C11": {
        "lean_modules": ["Dbg.Props.C11"],
        "theorems": ["Kmer.C11_constructors", "Kmer.C11_eq_iff", "Kmer.C11_lt_iff_lex", "Kmer.C11_history", "Kmer.C11_routes_agree", "Kmer.toNat_eq_val"],
        "partial": [],
        "n_quick": 6000, "n_thorough": 400000,
        "nontrivial": lambda toks, impl: impl != "panic" and toks[4] != "-" and toks[4].count(",") >= 2, "tags": _c11_tags,
        "rule": "requests `<type> hist <init> <ops> <other>`: a k-mer of one of the 25 types of the regenerated table (19 shipped + VarIntKmer<u8,K4>, <u16,K4>, <u128,K31> + the harness-defined sizes K33, K41, K63 on u128) built by from_bytes / from_u64 / from_ascii, then "
                "0-40 operations drawn from extend_left, extend_right, extend, rc, set_mut, set_slice_mut (random garbage below the run), "
                "min_rc; the answer lists the raw storage word and the bases after every step, then ==, hash equality and cmp against the "
                "from_bytes route to the same string and against another k-mer (random, or - a fifth of the time - the final string with its first and last m bases exchanged, m = K-32 for wide k-mers, K/2, 1, 8, 16; `hashother` must equal string equality), and the binary-search position in the sorted, "
                "de-duplicated family of up to 64 single-substitution neighbours. Non-trivial = at least 3 operations.",
        "trusted_base": ["#[derive(PartialEq, Eq, Ord, Hash)] on the k-mer structs are the structural functions of the storage integer "
                         "(PhantomData contributes nothing); slice::sort/dedup/binary_search are correct for a total order"],
        "assumptions": ["arguments in range"],
    },
    "C14": {
        "lean_modules": ["Dbg.Props.C14"],
        "theorems": ["DnaStr.C14_history", "DnaStr.C14_step", "DnaStr.C14_observers", "DnaStr.C14_repr_canonical", "DnaStr.C14_cmp_lex",
                     "DnaStr.C14_routes_agree", "DnaStr.C14_ndiffs", "DnaStr.C14_pushBytes_guard", "DnaStr.C14_packed_set",
                     "DnaStr.C14_block_set", "DnaStr.C14_block_get", "DnaStr.C14_block_order", "DnaStr.C14_blank"],
        "partial": [],
        "n_quick": 8000, "n_thorough": 600000,
        "nontrivial": lambda toks, impl: impl != "panic" and (toks[1] == "pset" or toks[2].count(";") >= 2), "tags": _c14_tags,
        "rule": "requests `hist <ops> <other>`: 1-25 operations from push, extend (lengths aimed at len%32 in {0,1,31}), push_bytes, set_mut, "
                "(round 11: plus `own.a.b.r` = replace the string by `slice(a, b)[.rc()].to_owned()`, start often block-aligned, after a long first string a window of 180+ bases; every iterator is also pushed strictly beyond its end and then asked for size_hint / collected) "
                "clear, blank, from_bytes, from_acgt_bytes, from_dna_string (10% non-ACGT characters, a quarter of them beyond ASCII: request bytes are code points 0..255, so such a character is two bytes of UTF-8); after every operation the raw "
                "storage blocks and length are observed (serde), at the end all renderings, reverse, rc, and ==/hash/cmp against the "
                "from_bytes route to the same bases and against `other` (random, a proper prefix, an extension by A's or random bases, "
                "same-length for ndiffs); the iterator is observed through its adaptors on a fresh iterator, after n/3 steps (`count`, `last`) and after exhaustion (`next`, `last`, `count`, `nth(0)`, `skip(n).last()`, `skip(n+1).next()` find nothing); one history in 25 starts from a string of 255..4100 bases (both sides of 256, 1024, 2048); `pset <seqs>`: PackedDnaStringSet add/get. Non-trivial = at least 3 operations.",
        "trusted_base": ["#[derive(PartialEq, Eq, Ord, Hash)] on DnaString are the structural functions of (storage: Vec<u64>, len); "
                         "Vec<u64> order is lexicographic with a proper prefix first"],
        "assumptions": ["set_mut index < len, bases < 4, push_bytes within its bytes (guard theorem covers the other side), "
                        "PackedDnaStringSet sequences shorter than 2^32 bases (the width of the stored length)",
                        "from_acgt_bytes / from_dna_string / from_dna_only_string are the C16 conversions followed by the `extend`/block push proved here"],
    },
    "C15": {
        "lean_modules": ["Dbg.Props.C15"],
        "theorems": ["DnaStr.Slice.C15_observers", "DnaStr.Slice.C15_eq", "DnaStr.Slice.C15_constructors", "DnaStr.Slice.C15_history",
                     "DnaStr.Slice.C15_slice_guard", "DnaStr.Slice.C15_getKmer", "DnaStr.Slice.C15_hamming",
                     "DnaStr.Slice.get_slice", "DnaStr.Slice.slice_length", "DnaStr.Slice.slice_isSome", "DnaStr.Slice.get_rc_fwd",
                     "DnaStr.Slice.rc_rc", "DnaStr.Slice.rc_fields", "DnaStr.Slice.complement_spec", "DnaStr.Slice.sliceOf_spec",
                     "DnaStr.Slice.prefix_spec", "DnaStr.Slice.suffix_spec", "DnaStr.Slice.debug_eq_display"],
        "partial": [],
        "n_quick": 6000, "n_thorough": 400000,
        "nontrivial": lambda toks, impl: impl != "panic" and (toks[1] == "ham" or toks[3].count(",") >= 1), "tags": _c15_tags,
        "shrink": _c15_shrink,
        "rule": "requests `slice <seq> <ops> <ktype> <pos>`: a DnaString of length 0-120 (10%: 256-300), then 1-7 nested view operations "
                "(slice(a,b), prefix, suffix, rc in any interleaving; 1/60 intervals out of range), then all renderers incl. Debug, to_owned "
                "(raw storage), == against an owned copy, get_kmer of one of 8 k-mer types; `ham <s1> <s2> a1 r1 a2 r2 n`: hamming_dist of two "
                "views of length n (0..200, block boundaries, 1023-2100; thorough 5000) at arbitrary offsets, either reverse-complemented, "
                "with 0-4 differences planted at positions 0, 31, 32, 1023, 1024, n/2, n-1; one pair in six is two views of one and the same string object (the same window in both orientations, or two windows); one pair in five is dense instead: 2048..4100 bases with every base of a long stretch shifted by a constant (or a sequence against a homopolymer). Non-trivial = ham, or nesting depth >= 2.",
        "trusted_base": [],
        "assumptions": ["interval arguments inside the view (outside: the crate asserts; compared as panic)"],
    },
    "C17": {
        "lean_modules": ["Dbg.Props.C17", "Dbg.Props.C12"],
        "theorems": ["Lmer.C17_constructors", "Lmer.C17_step", "Lmer.C17_history", "Lmer.C17_observers", "Lmer.C17_repr_canonical",
                     "Lmer.C17_routes_agree", "Lmer.C17_faithful", "Lmer.C17_getKmer_guard", "C12.C12_lmer",
                     "Lmer.C17_word_set", "Lmer.C17_word_get", "Lmer.C17_new_len"],
        "partial": [],
        "n_quick": 8000, "n_thorough": 600000,
        "nontrivial": lambda toks, impl: impl != "panic" and toks[1] == "hist" and toks[4] != "-", "tags": _c17_tags,
        "rule": "requests `hist <n> <seq> <ops>`: an Lmer of n = 1..6 words built by from_slice from a sequence of length 0..max_len (max_len and "
                "max_len-1/-2 favoured), then 0-8 operations set_mut / set_slice_mut (runs crossing a word boundary and runs inside the word "
                "that holds the length byte favoured, random garbage below the run) / rc; after every step the raw words are observed; at "
                "the end len, bases, == and hash against from_slice of the same bases. `new <n> <len>`. Non-trivial = at least one operation.",
        "trusted_base": ["#[derive(PartialEq, Eq, Ord, Hash)] on Lmer are structural on the word array"],
        "assumptions": ["len <= max_len, positions < len, run inside the string"],
    },
    "C13": {
        "lean_modules": ["Dbg.Props.C13", "Dbg.Props.C10"],
        "theorems": ["KIter.C13_dnaString", "KIter.C13_dnaString_guard", "KIter.C13_slice", "KIter.C13_bytes", "KIter.C13_lmer", "KIter.C13_iter",
                     "KIter.C13_iter_exts", "KIter.C13_specExt", "KIter.C13_term", "KIter.C13_iter_eq_getKmer", "KIter.C13_bytes_getKmer",
                     "KIter.C13_bytes_getKmer_guard", "Kmer.C10_kmersFromBytes", "Kmer.C10_kmersFromAscii"],
        "partial": [],
        "n_quick": 12000, "n_thorough": 800000,
        "nontrivial": lambda toks, impl: impl not in ("panic", "-"), "tags": _c13_tags,
        "rule": "requests `<ktype> getkmer|iter|iterexts|term <container> <seq> [arg]` over 12 k-mer types (K = 2..64, all five storage widths) and "
                "(round 11: plus the container `grown.a.b.r.tail.how` - the owned copy of a view, grown by push / extend / push_bytes) "
                "containers DnaString, forward and reverse-complemented DnaStringSlice at random offsets inside a longer string (a third of them a window `[x,y)` of such a view: `slice.a.b.r.x.y`), Lmer of "
                "1,2,3,4,6 words (25% at max_len), DnaBytes, DnaSlice; sequence lengths: < K and = K (1/6), block boundaries 31..300 (1/6), "
                "K..K+80; the plain `iter` request is drawn on sequences of every length (until round 8 of the seeded changes it was only the fall-back for sequences shorter than K; the evidence now counts the items each iterator request delivered), every iterator is also observed after n/3 steps and after exhaustion; one request in ten is a bulk constructor `kmersb` / `kmersa` (packed bases; text in either case with other characters); every k-mer answer carries the raw storage word. Non-trivial = the answer contains at least one k-mer.",
        "trusted_base": [],
        "assumptions": ["positions with pos + K <= len (outside: asserted by the crate)"],
    },
    "C12": {
        "lean_modules": ["Dbg.Props.C12", "Dbg.Props.C12b", "Dbg.Props.C10"],
        "theorems": ["Compress.exts_rc", "Compress.exts_complement", "Compress.exts_reverse", "Compress.exts_set", "Compress.exts_add", "Compress.exts_merge", "Compress.exts_fromSingleDirs", "Compress.exts_unique", "Compress.exts_num", "Compress.exts_singleDir", "Compress.exts_mk", "Compress.exts_fromSliceBounds", "Compress.exts_debug", "KSpec.rc_rc", "KSpec.rc_getElem", "KSpec.windows_rc", "KSpec.rc_window", "Kmer.C12_kmer_rc_involution", "Kmer.C12_minRc_spec",
                     "Kmer.C12_minRc_rc", "Kmer.C12_minRcFlip", "Kmer.C12_isPalindrome", "Compress.C12_exts_rc", "Kmer.C10_rc",
                     "C12.C12_dnaString", "C12.C12_lmer", "C12.C12_slice", "C12.C12_kmers_of_rc"],
        "partial": [],
        "n_quick": 8000, "n_thorough": 500000,
        "nontrivial": lambda toks, impl: impl != "panic", "tags": _c12_tags,
        "harness_key": "C12",
        "rule": "requests `<ktype> rc <container> <seq>`: rc, rc∘rc and the k-mers of the reverse complement for DnaString, DnaStringSlice (both "
                "orientations, inner offsets, windows of views) and Lmer (1-6 words), lengths 0, 1, block boundaries and random; `exts <hex>` for extension "
                "bytes (all 256 in the corpus). Verdict: rc = reversed complemented bases, rc∘rc = identity, i-th k-mer of rc = rc of the "
                "(n-K-i)-th k-mer; for slices also the owned copy of the rc view and the rc of the owned copy (both = the reversed complemented bases); Exts: sides swapped, bases complemented. K-mer types from the 22-row table. The k-mer instance (min_rc, flip, palindrome) is in the C10 requests.",
        "trusted_base": [],
        "assumptions": [],
    },
    "C16": {
        "lean_modules": ["Dbg.Props.C16"],
        "theorems": ["Avx2.C16_convert", "Avx2.C16_pack", "Avx2.C16_paths", "Avx2.C16_paths_agree", "Avx2.C16_render", "Avx2.C16_strict_runs",
                     "Avx2.C16_hashn", "Avx2.C16_hashn_arms", "Avx2.lane_table", "Avx2.C16_baseToBits_table", "Avx2.C16_valid_table",
                     "Avx2.C16_render_back", "Avx2.C16_scalar_is_bytewise", "Avx2.C16_str_agrees"],
        "partial": [],
        "n_quick": 12000, "n_thorough": 1000000,
        "nontrivial": lambda toks, impl: impl not in ("panic", "unavailable"), "tags": _c16_tags,
        "rule": "requests: `acgt auto|scalar <bytes>` (lengths 0..130 incl. 0,1,31..33,63..65,95..97,128,130; 60% ACGTacgt, 40% arbitrary bytes "
                "(round 11: plus texts of 4 095 .. 32 790 bytes on both sides of 4 096, 8 192, 16 384, 32 768) "
                "0..255; valid 32-byte blocks with 0-2 lanes perturbed to arbitrary values plus a tail), `kernel convert|pack <32 bytes>` "
                "(raw AVX2 kernels through the hook wrappers, arbitrary bytes incl. >= 4 for pack), `str` (text as code points 0..255, half of the time with characters beyond ASCII; `acgt` and `str` answers carry `to_string()` as well, expected: the upper-cased input; one length in 40 is 255..2049), `only` (ASCII text with 40% "
                "arbitrary ASCII; half of the `only` texts are built from runs of valid bases with lengths around and on multiples of 32, one to three other characters between them), `hashn <b1> <b2> <name>` (two byte strings under one read name, a third of them with a gap of 30..100 non-ACGT bytes: non-ACGT positions shared between the "
                "two must receive the same base). Forced-scalar path through the verif_hooks switch. Non-trivial = an answer was produced.",
        "trusted_base": ["x86 semantics of the eleven AVX2 intrinsics as transcribed in Model/Avx2.lean (validated against the hardware by the "
                         "kernel requests on arbitrary bytes)", "DefaultHasher is an arbitrary deterministic function (parameter of the model)"],
        "assumptions": ["from_dna_string: code points < 256 (`c as u8` truncates; non-Latin-1 aliasing is outside the property)"],
    },
    "C05": {
        "lean_modules": ["Dbg.Props.C05"],
        "theorems": ["Filter.C05_exts_are_flanks", "Filter.C05_table_wf", "Filter.C05_filter_eq_ref", "Filter.C05_pass_independent", "Filter.C05_keys_ascending", "Filter.C05_ranges_tile",
                     "Filter.C05_passes_le", "Filter.C05_range_shape", "Filter.C05_count_summary"],
        "partial": [],
        "n_quick": 2500, "n_thorough": 150000,
        "nontrivial": lambda toks, impl: impl.startswith("passes=") and impl.split("|")[1].count(",") >= 1, "tags": _c05_tags,
        "shrink": _reads_shrink(10),
        "rule": "requests `filter K stranded report_all summarizer memory bytes_per_unit size_of_pair probes reads`: read sets from the structured "
                "(round 11: plus `deepmix K n t stranded`: one read A^n t A^n with n > 2^19 - more than 2^20 observations in one bucket that holds several distinct k-mers - judged in closed form through the reference grouping of the short read A^(K+2) t A^(K+2), DESIGN 10.6) "
                "generator (alphabet 1-4; uniform, chunk-pasted with reuse, s++rc(s), hairpins, tandem repeats, homopolymers, tight cycles, "
                "reads < K, rc/duplicate/SNP/tip copies; random boundary extensions on a quarter of the reads; labels 0..2), K in "
                "{4,5,6,8,12,16,31,32,40,41,48,64} (thorough: all 17 types with K>=4), CountFilter(n) / CountFilterSet(n) for n in {0,1,2,3,4,70000}, "
                "both strandedness and report_all values; one request in 60 is `deep K base nobs stranded summ label` - a single k-mer observed around 2^16 or just above 2^20 times, judged in closed form against the statement (implementation against the statement, not the model); the bytes-per-unit hook is set so that the pass count sweeps 1, 2, 2-8, 8-64, "
                "64-256 and 256; one request in 150 is a single read with a run of 65600-70000 equal bases, up to two other bases before it and up to three after it, under thresholds 1, 2, 65535, 65536, 70000 (count saturation; the run's first and last observations carry flanks no other does). The answer carries the number of passes really "
                "made (hook counter), the table sorted by key, all_kmers verbatim and lookups of present/absent k-mers. Non-trivial = at "
                "least two table entries.",
        "trusted_base": ["BoomHashMap2: exact get after key verification, iteration is a permutation of the inserted triples; "
                         "slice::sort_by_key is stable; itertools group_by groups maximal runs"],
        "assumptions": ["K >= 4 (bucket reads bases 0..3), memory_size >= 1"],
    },
    "C01": {
        "lean_modules": ["Dbg.Props.C01", "Dbg.Props.C01b"],
        "theorems": ["Compress.C01_steps_recorded", "Compress.C01_from_reads", "Compress.C01_no_exts", "Compress.C01_partition", "Compress.C01_node_assembly", "Compress.C01_nodes_are_id_paths", "Compress.C01_ids_partition",
                     "Compress.C01_walk_no_panic", "Compress.compress_components_concrete", "Walk.compress_components",
                     "Compress.C01_hash_index", "Compress.C01_partition_hashed", "Boom.createTable_spec", "Boom.keyId_exact"],
        "partial": ["the no-exts entry point is proved at table level (C01_no_exts: the discovered extension table is well-formed and reciprocal, so C01 applies); the hash-map glue is proved above Mphf (C01_hash_index: for every minimal perfect hash on the keys create_map terminates with a permutation of the rows and get_key_id is the model's positional lookup, for present and absent k-mers; C01_partition_hashed); that Mphf::new returns a minimal perfect hash, and the from-slice wrapper, are tied by correspondence only"],
        "n_quick": 3000, "n_thorough": 200000,
        "nontrivial": _c01_nontrivial, "tags": _c01_tags, "shrink": _table_shrink,
        "rule": _C01_RULE,
        "trusted_base": ["BoomHashMap2::get_key_id/get are exact lookups; its index order is an arbitrary permutation (observed, passed to the model)",
                         "bit_set::BitSet is a set of ids"],
        "assumptions": ["tables with reciprocal extensions (every table produced from reads; others only compared with the model)"],
    },
    "C02": {
        "lean_modules": ["Dbg.Props.C02", "Dbg.Props.C02b", "Dbg.Props.C02c"],
        "theorems": ["Compress.C02_is_compressed", "Compress.C02_is_compressed_from_reads", "Compress.C02_order_independent", "Compress.C02_from_reads", "Compress.C02_components_seq", "Compress.C02_components", "Compress.C02_link_sym", "Compress.linkOf_sym", "Compress.noPanic"],
        "partial": [],
        "n_quick": 3000, "n_thorough": 200000,
        "nontrivial": _c01_nontrivial, "tags": _c01_tags, "shrink": _table_shrink,
        "harness_key": "C02",
        "rule": _C01_RULE + " C02 is judged on tables whose extensions all resolve (the property's hypothesis).",
        "trusted_base": ["as C01"],
        "assumptions": ["join predicate symmetric (both shipped specs are)", "extensions reference only present k-mers"],
    },
    "C03": {
        "lean_modules": ["Dbg.Props.C03", "Dbg.Props.C03b", "Dbg.Props.C09c", "Dbg.Lemmas.IsCompressed"],
        "theorems": ["Graph.C03_maxPathBeam_returns", "Compress.PGraph.resolving", "Pipeline.C03_adjacency_exact", "Graph.C03_maxPath_fuel", "Graph.C03_maxPathBeam_trail", "Graph.C03_maxPathBeam_sequence", "Graph.C03_maxPathBeam_terminates", "CompressGraph.C09_result_wellformed", "Graph.C03_link_exact", "Graph.C03_edges_complete", "Graph.C03_exts_resolve_from_reads", "Graph.C03_observed_adjacency_recorded", "Compress.ext_target_port", "Compress.findLink_complete", "Graph.C03_ginv_of_compress", "Graph.C03_edges_symmetric_from_reads", "Graph.C03_edges_symmetric", "Graph.C03_ginv_decidable", "Graph.C03_prune_exact", "Graph.C03_valid_exts_exact", "Graph.C03_edges_justified", "Graph.C03_walk_sequence", "Graph.C03_maxPath_walk", "Graph.C03_maxPath_sequence", "Graph.edge_overlap", "Graph.findLink_sound", "Graph.searchKmer_sound", "Graph.searchKmer_complete", "Graph.findLink_exts_irrelevant"],
        "partial": [],
        "n_quick": 3000, "n_thorough": 200000,
        "nontrivial": lambda toks, impl: impl != "panic" and (toks[1] != "graph" or toks[4].count(",") >= 1), "tags": _c03_tags,
        "rule": "requests: `graph K stranded nodes probes valid scores walk` on graphs produced by the real pipeline (filter -> prune -> compress -> "
                "finish) from the structured read-set generator: all edge lists, find_link for terminal / internal / random k-mers in both "
                "directions, get_valid_exts with all-valid or a random validity set, max_path with random integer scores 0..5 and solid "
                "flags, max_path_beam with beam widths 1, 2, 5 and the same scores, sequence_of_path of the best paths and of a random walk along reported edges; `prune K stranded sharded table all`: "
                "both pruning functions with a random censored quarter; `pipe K stranded thr reads` (thr = `<n>`: CountFilter, `s<n>`: CountFilterSet with all reads under one label, a third of the time): the pipeline end to end with overlap, "
                "symmetry and adjacency-set = (K+1)-mers-of-the-reads checked; one request in 150 is a `pipe` on a single read with a run of 65 600-70 000 equal bases and other bases around it (a k-mer observed more often than its u16 count tells; late flanks). Non-trivial = graph with >= 2 nodes, or a prune/pipe request.",
        "trusted_base": ["BoomHashMap::get is exact on distinct keys (node ends of a valid graph are distinct)", "scores are small integers, exactly representable as f32"],
        "assumptions": ["pruning slices sorted by key (what filter_kmers + sort deliver)"],
    },
    "C09": {
        "lean_modules": ["Dbg.Props.C09", "Dbg.Props.C09b", "Dbg.Props.C09c", "Dbg.Props.C09d", "Dbg.Props.C09e"],
        "theorems": ["CompressGraph.C09_is_compressed_after_recompress", "Compress.PGraph.isCompressed_none", "Graph.C09_findBadNodes", "CompressGraph.C09_idempotent", "CompressGraph.C09_result_wellformed", "Compress.pgraph_compressGraph", "Compress.pgraph_recompress_idem", "CompressGraph.C09_recompress_eq_direct", "CompressGraph.C09_char", "CompressGraph.C09_char_of_built", "CompressGraph.rinv_fixExts", "CompressGraph.glinkV_sym", "CompressGraph.extendNode_refines", "CompressGraph.static_ok", "CompressGraph.palEnd_of_compress", "CompressGraph.C09_kmers_cover", "CompressGraph.C09_no_dangling", "CompressGraph.buildNode_kmers", "CompressGraph.buildNode_payload", "CompressGraph.fixExts_exact", "CompressGraph.extendNode_chain", "CompressGraph.C09_censored_excluded", "CompressGraph.extendNode_ok", "CompressGraph.buildNode_ok", "CompressGraph.compressLoop_ok"],
        "partial": [],
        "n_quick": 2500, "n_thorough": 150000,
        "nontrivial": lambda toks, impl: impl not in ("panic", "-") and toks[8].count(",") >= 2, "tags": _c09_tags,
        "rule": "requests `recompress K gstranded stranded join reduce censor nodes` on graphs obtained from the real pipeline at three compression "
                "levels (one k-mer per node; two separately compressed halves combined with BaseGraph::combine; fully compressed), censor "
                "sets none / the real tip finder's output / a random fifth of the nodes, one list in four with repeated ids (any position) or ids beyond the graph, as concatenated verdicts of several cleaners give; stranded 1/3; join always|payload equality; reduce "
                "sum|max|mix; one request in 12 is a stranded read `L ++ P ++ R` (P its own reverse complement) compressed in three pieces around P and combined. The debug_assert!(is_compressed) inside compress_graph is live in the checked harness profile. "
                "Non-trivial = at least three input nodes and a non-empty result.",
        "trusted_base": ["BoomHashMap::get exact on distinct node ends; finish() = finish_serial() (C19)"],
        "assumptions": ["input graphs are valid (reachable from read sets); graph and compression strandedness agree"],
    },
    "C18": {
        "lean_modules": ["Dbg.Props.C18"],
        "theorems": ["Export.C18_all_nodes", "Export.C18_drain", "Export.C18_refines", "Export.C18_len_upfront", "Export.C18_end_is_sticky", "Export.next_sim", "Export.nth_sim", "Export.win_succ"],
        "partial": [],
        "n_quick": 4000, "n_thorough": 300000,
        "nontrivial": lambda toks, impl: impl != "panic" and (toks[1] == "all" or toks[5].count(",") >= 1), "tags": _c18_tags,
        "shrink": _c18_shrink,
        "rule": "requests `iter K nodes idx calls`: a graph of 1-4 nodes (lengths K..K+13, a quarter exactly K), the iterator of the first, a middle "
                "or the last node, 1-12 calls from next / nth(0..4) / nth(5..9) / nth(remaining-1, remaining, remaining+1, remaining+5); "
                "`all K nodes`: `for node in &graph { for kmer in node }`. Non-trivial = at least two calls.",
        "trusted_base": ["ExactSizeIterator::len() = size_hint().0"],
        "assumptions": ["len() is observed on a fresh iterator only (the property asks for the count up front)"],
    },
    "C20": {
        "lean_modules": ["Dbg.Props.C20", "Dbg.Props.C20b", "Dbg.Props.C20c", "Dbg.Props.C20d", "Dbg.Props.C20e", "Dbg.Props.C09c"],
        "theorems": ["Serde.C20_kmer_text_injective", "Serde.C20_exts_text_injective", "Serde.C20_dna_text_injective", "Serde.C20_lmer_text_injective", "Serde.C20_baseGraph_text_injective", "Export.dot_arrows_iff", "Export.dot_adjacency_at_both_ends", "Export.toDot_eq", "Json.C20_json_wellformed", "Json.natLit", "Json.strBody_escape", "Export.C20_json_writer_eq_document", "Export.C20_json_lists_every_node", "Export.C20_json_lists_every_link", "CompressGraph.C20_gfa_complete_after_recompress", "Export.gfa_complete_of_compress", "Export.gfa_no_duplicate", "Export.gfa_links_complete_ginv", "Export.edges_ports_nodup", "Export.gfa_link_sound", "Export.gfa_links_complete", "Export.gfa_segment", "Export.mem_allLinks"],
        "partial": ["JSON: the writer modelled statement by statement (index tests, wrote_any flag, per-group comma test) is proved to emit exactly the document jsonDoc - arrays whose items are separated, never followed, by commas - for every graph (C20_json_writer_eq_document); the document is a JSON text in the sense of an inductive grammar (C20_json_wellformed; payload renderings and rest values assumed JSON values, keys escaped as serde_json does); every exported text is additionally parsed by serde_json in the correspondence; serde round trips are compared by execution. gfa_links_complete_ginv assumes the node-level invariant GInv, proved for the output of compress_kmers (gfa_complete_of_compress), of compress_graph without censoring (C20_gfa_complete_after_recompress) and of the sharded pipeline (C04_sharded_eq_direct); for hand-built graphs it is a decidable hypothesis"],
        "n_quick": 3000, "n_thorough": 200000,
        "nontrivial": lambda toks, impl: impl != "panic" and (toks[1] != "export" or toks[4].count(",") >= 1), "tags": _c20_tags,
        "shrink": _c20_shrink,
        "rule": "requests `export K stranded nodes rest`: GFA and JSON text of graphs from the pipeline (60%), hand-made empty / single-node / "
                "(round 11: `persist graph` also assembles the same nodes from two and three shards with BaseGraph::combine, finishes, writes, reads back and compares nodes and edge lists) "
                "link-free graphs (single and link-free nodes also on both sides of 256 bases and, one single node in twelve, of 8192 / 16384 bases, pipeline graphs with a 280-340-base read: `Debug` of a view stops printing bases there), pipeline graphs with dangling extension bits and removed nodes, with and without a `rest` object (keys with quotes, backslashes, control characters); the output paths exist beforehand and hold more bytes than the export writes; to_gfa (file) must equal write_gfa, to_gfa_with_tags (file) must be write_gfa with one tag field per segment, write_gfa into a sink accepting 1, 7, 64 bytes per call must equal it too, to_gfa_with_tags (file), to_dot (file) and `Debug` of every node are compared with the model; the JSON is additionally parsed with serde_json and its node and "
                "link counts compared with the graph; `persist kmer|dna|exts|lmer|graph …`: the text serde_json writes is compared with the model's (`Serde.*`; for graphs the `BaseGraph` text), and the round trip is observed with equality and query "
                "comparison. Non-trivial = export of a graph with >= 2 nodes, or a persist request.",
        "trusted_base": ["serde / serde_json derive code (round trips are tested, not proved)", "Debug of DnaStringSlice (C15) renders the node sequence"],
        "assumptions": ["payload renderings are JSON values"],
    },
    "C04": {
        "lean_modules": ["Dbg.Props.C04"],
        "theorems": ["Pipeline.C04_final_is_compressed", "Pipeline.C04_sharded_eq_direct", "Pipeline.C04_payloads_agree", "Pipeline.C04_adjacencies_agree", "Compress.PGraph.adj_iff", "Compress.compressGraph_kdata", "Compress.sharded_result_ginv", "Pipeline.sigmasOK_identity", "Compress.sharded_eq_direct_abstract", "Compress.pgraph_recompress", "Compress.shard_sandwich", "Compress.pgraph_flatten", "Compress.PGraph.ginv", "Pipeline.C04_shard_tables", "Pipeline.C04_shard_filter", "Pipeline.shardCfg_default", "Filter.read_observations", "Filter.table_restrict", "Pipeline.C04_link_pieces", "Pipeline.C04_link_shard", "Pipeline.C04_link_recompress"],
        "partial": [],
        "n_quick": 1500, "n_thorough": 60000,
        "nontrivial": _c04_nontrivial, "tags": _c04_tags, "shrink": _reads_shrink(8),
        "rule": "requests `sharded K P perm stranded thr prune reads`: both real pipelines on the same read set from the structured generator; (K,P) in "
                "(round 11: plus `bigrep K P stranded thr unit reps seed`: a tandem repeat of 65 536 .. 131 100 bases between random flanks, sharded against direct assembly, implementation against implementation, DESIGN 10.6) "
                "{(4,2),(5,2),(6,2),(6,3),(8,3),(16,5)} (thorough adds (12,4),(31,6),(32,6),(48,8)); default and random minimizer permutations; "
                "stranded 1/3 (rc mode of the partition = unstranded); thresholds 1-3; with and without the sharded pruning step. The per-shard "
                "hash orders are read back and handed to the model, which recomputes both pipelines. Non-trivial = at least two shards and at "
                "least two nodes in the sharded result.",
        "trusted_base": ["HashMap/BTreeMap grouping of pieces by bucket", "as C01, C05, C08, C09"],
        "assumptions": ["msp_sequence within its contract (1<=P<=K, K>=4, 2K-P<=65535, reads < 2^32 bases, permutation injective of size 4^P: ShardCfg); hash-map orders are permutations (SigmasOK; the harness reads them back from the real maps); join predicates constantly true as in the crate's pipelines"],
    },
    "C06": {
        "lean_modules": ["Dbg.Props.C06", "Dbg.Props.C06b", "Dbg.Props.C06c"],
        "theorems": ["Pipeline.C06_direct_adjacency_rc_invariant", "Pipeline.adjK_occ", "Pipeline.occ_flip", "Pipeline.C06_direct_rc_invariant", "Pipeline.C06_direct_payload_rc_invariant", "Pipeline.C06_sharded_rc_invariant", "Compress.krel_contentW", "Compress.C06_filter_rc_invariant", "Compress.C06_tables_agree", "Compress.C06_graph_rc_invariant", "Compress.C06_stranded_separation", "Compress.linkOf_congr", "Compress.C06_key_is_min", "Compress.C06_key_rc_invariant", "Compress.C06_flip_opposite", "Compress.C06_stranded_no_canon", "Compress.C06_unstranded_canon"],
        "partial": [],
        "n_quick": 1200, "n_thorough": 50000,
        "nontrivial": lambda toks, impl: impl != "panic" and toks[5] != "-" and toks[6].count(",") >= 1, "tags": _c06_tags, "shrink": _reads_shrink(6),
        "rule": "requests `rcsym K stranded thr mask reads`: the crate builds the k-mer table and the direct, sharded and re-compressed graphs for the "
                "read set and for the read set with the masked reads reverse-complemented (random masks, each read with probability 1/2); K in "
                "{4,5,6,8,12,16} and the harness-defined odd sizes 33, 41 on u128 (for odd K a third of the read sets gets a read through a k-mer `X m rc(X)`, equal to its reverse complement everywhere but in the middle base). Unstranded: keys, counts, extension sets of non-palindromic k-mers, partitions, payloads and "
                "adjacencies must coincide and every key must be the minimum of k-mer and reverse complement; stranded: the table must be exactly "
                "the forward k-mers of the reads with their counts. Non-trivial = a non-empty mask and at least two reads.",
        "trusted_base": ["as C01, C04, C05, C09"],
        "assumptions": [],
    },
    "C19": {
        "lean_modules": ["Dbg.Props.C19", "Dbg.Props.C19b"],
        "theorems": ["Graph.C19_index_unique", "Graph.C19_queries_determined", "Graph.C19_search_exact", "Graph.searchKmer_exact",
                     "Boom.C19_boom_exact", "Boom.C19_builders_agree", "Boom.get_exact", "Boom.get_no_panic", "Boom.slots_of_keyIds",
                     "Boom.C19_finish_exact", "Boom.C19_finish_eq_search", "Boom.C19_finish_no_panic", "Boom.create_spec", "Boom.settle_spec", "Boom.createLoop_spec", "Boom.layoutOK_of_perm"],
        "partial": ["proved for every hash function a builder may produce (a universally quantified parameter of the BoomHashMap model, arbitrary on absent keys): if the slots hold the pairs (terminal k-mer of node i, i) in the order that function dictates, every lookup is exact and any two builders agree (C19_builders_agree). create_map (the cycle sort) is modelled too and proved to terminate, to permute the pairs and to leave each in its slot for every function that is a minimal perfect hash on the node ends (C19_finish_exact: finish/finish_serial give exact lookups above Mphf). That the function boomphf's Mphf construction returns is minimal perfect on the inserted keys under every thread schedule is not provable in a model of this crate: its consequences (slots, layout) are evaluated on the real maps' slot layout (hook verif_index_layout) after every run (1-16 threads, repeated runs, 10^5-node graphs)"],
        "n_quick": 1500, "n_thorough": 60000,
        "nontrivial": lambda toks, impl: impl.startswith("same=1") or ("same=1" in impl and toks[5].count(",") >= 1), "tags": _c19_tags,
        "rule": "requests `finish K stranded threads nodes probes`: pipeline graphs (one in three with even K extended by hand-built nodes around a k-mer that is its own reverse complement - a longer node that starts or ends with it, neighbours whose extension leads to it - and probed at that k-mer and the new node ends on both sides; one in three with K > 32 by two nodes whose first or last k-mers are twins `P M Q` / `Q M P`, |P| = |Q| = K - 32) finished once with finish_serial() and five times with finish() "
                "inside a rayon pool of 1,2,3,4,8 or 16 threads; every edge list and link lookups for terminal, internal, reverse-complemented "
                "and random k-mers are compared between the builders, across runs and with the model; `big K seed n threads reps`: graphs of "
                "10^5 nodes (thorough: 3*10^5), parallel vs serial on every node side and 10^4 random k-mers (implementation against "
                "implementation; the model is not consulted at this size). The corpus holds one 10^5-node case for every quick run. "
                "Every `finish` answer carries the slot layout (key, value, slot reported by get_key_id) of the four real index maps - serial L/R and the parallel run whose slot order differs from the serial one - "
                "on which the driver evaluates the hypotheses of `C19_builders_agree` (`layoutOK`, `slotsOK`); on the 10^5-node graphs the same two predicates are evaluated in Rust on every run.",
        "trusted_base": ["boomphf's Mphf::new / new_parallel (bit-vector cascade, rayon): not modelled; assumed to return a function that is injective on the inserted keys with ranks below their number (MPH) and whose ranks for absent keys are below that number too (InRange); the consequences are observed on the real slot layout after every run", "BoomHashMap::create_map / get / get_key_id: modelled by hand from boomphf-0.6.0/src/hashmap.rs (an external crate, read not translated)"],
        "assumptions": ["node ends distinct (valid graphs)"],
    },
}
